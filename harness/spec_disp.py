"""Executable statement of the dispatcher properties (C03, C04, C10, C20) — the *oracle*.

An abstract interpreter, written from the property text and independent of both desper and the
Lean model: one table `registered`, delivery "once to each listener registered when the dispatch
started and still alive", a FIFO of postponed events.  It follows the implementation's resolution
of unordered choices (the receiver sequence of its callback log) exactly as the Lean model does,
and produces the observation stream the property requires; `compare` then classifies the first
disagreement with the implementation's stream.
"""
from harness.models.disp import split_list, parse_ops


class Raised(Exception):
    def __init__(self, name):
        self.name = name


class BadHint(Exception):
    pass


class Spec:
    def __init__(self, lines, hints):
        self.classes = []      # mapping or None per class
        self.over = []         # methods each class defines itself
        self.hbase = []        # its handler base (single lineage)
        self.objmap = {}
        self.objev = {}        # an instance's own __events__ hides its class's
        self.reactions = {}
        self.ops = []
        self.out = []
        self.hints = list(hints)
        for ln in lines:
            t = ln.split()
            if not t:
                continue
            if t[0] == 'class':
                d = dict(x.split('=', 1) for x in t[2:])
                bases = [int(b) for b in split_list(d['bases'])]
                names = split_list(d['names'])
                kw = [p.split(':') for p in split_list(d['kw'])]
                self.over.append(set(split_list(d.get('over', '-'))))
                self.hbase.append(next((b for b in bases if self.classes[b] is not None), None))
                inh = next((self.classes[b] for b in bases if self.classes[b] is not None), None)
                if not names and not kw:
                    self.classes.append(inh)
                else:
                    m = dict(inh or {})
                    for n in names:
                        m[n] = n
                    for k, v in kw:
                        m[k] = v
                    self.classes.append(m)
            elif t[0] == 'obj':
                d = dict(x.split('=', 1) for x in t[2:])
                self.objmap[int(t[1])] = int(d['class'])
                if 'ev' in d:
                    self.objev[int(t[1])] = dict(p.split(':') for p in split_list(d['ev']))
            elif t[0] == 'react':
                self.reactions[(int(t[1]), t[2], int(t[3]))] = parse_ops(t[5:])
            elif t[0] == 'op':
                self.ops.append(t[1:])
        self.held = set(self.objmap)
        self.pinned = []
        self.dying = set()
        self.registered = {}       # oid -> mapping
        self.known = set()         # event names that had a listener since the last clear
        self.enabled = True
        self.queue = []
        self.calls = {}

    def alive(self, o):
        return o in self.held or o in self.pinned

    def finalize(self, o):
        self.dying.discard(o)
        self.registered.pop(o, None)

    def op(self, t):
        k = t[0]
        if k == 'raise':
            raise Raised(t[1])
        if k in ('add', 'remove', 'drop', 'ishandler'):
            o = int(t[1])
            if o not in self.held:
                self.out.append(f'gone {o}')
                return
            if k == 'add':
                m = self.objev.get(o, self.classes[self.objmap[o]])
                if m is None:
                    raise Raised('AssertionError')
                self.registered[o] = m
                self.known.update(m)
            elif k == 'remove':
                self.registered.pop(o, None)
            elif k == 'drop':
                self.held.discard(o)
                if o in self.pinned:
                    self.dying.add(o)
                else:
                    self.finalize(o)
            else:
                self.out.append(f'ish {o} {int(o in self.registered)}')
        elif k == 'dispatch':
            self.dispatch(t[1], t[2])
        elif k == 'enable':
            self.enabled = bool(int(t[1]))
            while self.enabled and self.queue:
                ev, args = self.queue.pop(0)
                self.dispatch(ev, args)
        elif k == 'clear':
            self.registered.clear()
            self.known.clear()
            self.queue.clear()
            self.enabled = True
        else:
            self.extra(t)

    def extra(self, t):
        raise ValueError(t)

    def dispatch(self, ev, args):
        if ev not in self.known:
            return
        if not self.enabled:
            self.queue.append((ev, args))
            return
        remaining = {o: m[ev] for o, m in self.registered.items() if ev in m}
        while True:
            live = [o for o in remaining if self.alive(o)]
            if not live:
                return
            if not self.hints or self.hints[0] not in live:
                raise BadHint()
            o = self.hints.pop(0)
            meth = remaining.pop(o)
            self.call(o, meth, args)

    def impl(self, o, meth):
        """The class whose definition of `meth` an instance uses (the statement: *the method* the
        handler maps to the event, i.e. its own class's, overrides included)."""
        c = self.objmap[o]
        while c is not None:
            if meth in self.over[c]:
                return str(c)
            c = self.hbase[c]
        return 'R'

    def call(self, o, meth, args):
        k = self.calls.get((o, meth), 0)
        self.calls[(o, meth)] = k + 1
        self.out.append(f'cb {o} {meth}@{self.impl(o, meth)} {args}')
        self.pinned.insert(0, o)
        try:
            for t in self.reactions.get((o, meth, k), ()):
                self.op(t)
        finally:
            self.pinned.remove(o)
            if o in self.dying and o not in self.pinned:
                self.finalize(o)

    def run(self):
        for cid, m in enumerate(self.classes):
            self.out.append(f'events {cid} ' + ('none' if m is None else
                            (','.join(f'{k}:{v}' for k, v in sorted(m.items())) or '-')))
        for t in self.ops:
            try:
                self.op(t)
                self.out.append('res ok')
            except Raised as e:
                self.out.append('res raised ' + e.name)
            except BadHint:
                self.out.append('res bad-hint')
        return self.out


def expected(lines, obs, cls=Spec):
    hints = [int(o.split()[1]) for o in obs if o.startswith('cb ') and o.split()[1] != 'None']
    return cls(lines, hints).run()


def compare(pid, exp, act, project=lambda x: x):
    """First disagreement between required (exp) and observed (act) observations -> [violation]."""
    e, a = project(exp), project(act)
    if e == a:
        return []
    k = next((i for i, (x, y) in enumerate(zip(e, a)) if x != y), min(len(e), len(a)))
    want = e[k] if k < len(e) else '<end>'
    got = a[k] if k < len(a) else '<end>'
    if got.startswith('cb None'):
        kind = 'none-receiver'
    elif got == 'hang' or got == 'res hang':
        kind = 'hang'
    elif want == 'res bad-hint':
        kind = 'wrong-delivery'
    elif got.startswith('cb ') and not want.startswith('cb '):
        kind = 'unexpected-callback'
    elif want.startswith('cb ') and not got.startswith('cb '):
        kind = 'missing-callback'
    elif want.startswith('cb ') and got.startswith('cb '):
        if want.split()[1] == got.split()[1] and want.split()[2].split('@')[0] == got.split()[2].split('@')[0] \
                and want.split()[2] != got.split()[2]:
            kind = 'wrong-method-implementation'
        else:
            kind = 'wrong-callback' if want.split()[1:3] != got.split()[1:3] else 'wrong-arguments'
    else:
        kind = 'wrong-' + want.split()[0]
    return [{'sig': f'{pid}:{kind}', 'what': f'observation #{k}: required `{want}`, '
             f'implementation gave `{got}`'}]
