"""Seeded scenario generators for the `coro` model (C08, C09)."""

WAITS = ['N', '0', '-1', '-8'] + [str(k) for k in (1, 2, 3, 4, 8, 12, 16, 24, 32)]
DTS = [0, 1, 2, 3, 4, 8, 12, 16]


def gen_step(rng, n, act_p, waits, targets):
    acts = []
    while rng.random() < act_p and len(acts) < 3:
        acts.append(f'{rng.choice(["start", "kill", "kill", "state"])} {rng.choice(targets)}')
    return acts


EXCS = ['Quit', 'Quit', 'SwitchWorld', 'RuntimeError', 'KeyError', 'ZeroDivisionError']


def gen_script(rng, g, n, max_steps, act_p, waits, wait_p=0.5, raise_p=0.0):
    """steps ending in a yield, then a final `ret` step (every script ends with exactly one ret);
    with probability raise_p one of the steps leaves with an exception instead"""
    targets = list(range(n)) + [g, g] + ([n] if rng.random() < 0.2 else [])
    steps = []
    k = rng.randint(0, max_steps)
    crash_at = rng.randrange(k) if k and rng.random() < raise_p else None
    for j in range(k):
        acts = gen_step(rng, n, act_p, waits, targets)
        if j == crash_at:
            steps.append(' ; '.join(acts + [f'raise {rng.choice(EXCS)}']))
            continue
        w = rng.choice(waits) if rng.random() < wait_p else rng.choice(['N', 'N', '0', '-1'])
        steps.append(' ; '.join(acts + [f'yield {w}']))
    acts = gen_step(rng, n, act_p, waits, targets)
    steps.append(' ; '.join(acts + [f'ret {rng.choice(["N", "0", "5", "-3", "7"])}']))
    return f'gen {g} : ' + ' | '.join(steps)


def gen_timing(rng, tier):
    """C08: 1-6 scripts without in-body actions, uneven dt, starts at arbitrary frames."""
    n = rng.randint(1, 6)
    style = rng.random()
    waits = WAITS if style < 0.6 else rng.sample(WAITS, 3) + ['N']
    dts = DTS if style < 0.5 else rng.sample(DTS, 2) + [rng.choice(DTS)]
    lines = [gen_script(rng, g, n, rng.randint(2, 14), 0.0, waits, rng.choice([0.3, 0.6, 0.9]))
             for g in range(n)]
    unstarted = list(range(n))
    rng.shuffle(unstarted)
    for _ in range(rng.randint(1, n)):
        lines.append(f'op start {unstarted.pop()}')
    for _ in range(rng.randint(20, 60)):
        if unstarted and rng.random() < 0.15:
            lines.append(f'op start {unstarted.pop()}')
        elif rng.random() < 0.03:
            lines.append(f'op start {rng.randrange(n)}')       # mostly refused: already running
        lines.append(f'op process {rng.choice(dts)}')
    return lines


def gen_near_miss(rng, tier):
    """C08 "never earlier": time in units of 2**-30 s; the frames add up to a hair (1 .. 2000 units, i.e.
    less than 2 microseconds) less than the wait, then cross it; all values exact binary fractions."""
    one = 2 ** 30
    n = rng.randint(1, 3)
    lines = ['unit 30']
    for g in range(n):
        w = rng.choice([one, one, 2 * one, one // 2, 3 * one])
        lines.append(f'gen {g} : ' + ' | '.join([f'yield {w}'] * rng.randint(1, 3) + ['yield N', 'ret N']))
    lines += [f'op start {g}' for g in range(n)]
    lines.append(f'op process {rng.choice([0, one // 4])}')
    for _ in range(rng.randint(2, 5)):
        hair = rng.choice([1, 3, 100, 1000, 2000])
        part = rng.choice([one // 2, one // 4, 3 * one // 4])
        rest = rng.choice([one, one // 2]) - part - hair
        lines += [f'op process {part}']
        if rest > 0:
            lines += [f'op process {rest}']
        lines += [f'op process {hair}', 'op process 0'] if rng.random() < 0.7 else [f'op process {2 * hair}']
    typed_lines = []
    for ln in lines:
        t = ln.split()
        if rng.random() < 0.3 and t[:2] == ['op', 'process']:
            ln = f'op process F{t[2]}'
        typed_lines.append(ln)
    return typed_lines


def gen_lifecycle(rng, tier, max_gens=4, max_ops=25):
    """C09: interleavings of start/kill/state/process/value from outside and inside bodies."""
    n = rng.randint(1, max_gens)
    act_p = rng.choice([0.0, 0.2, 0.4, 0.6])
    raise_p = rng.choice([0.0, 0.0, 0.25, 0.5])
    lines = [gen_script(rng, g, n, rng.randint(0, 6), act_p, WAITS, rng.choice([0.2, 0.5]), raise_p)
             for g in range(n)]
    targets = list(range(n)) * 3 + [n]
    kinds = ['start'] * 4 + ['kill'] * 3 + ['state'] + ['process'] * 5 + ['value']
    for g in range(n):
        if rng.random() < 0.6:
            lines.append(f'op start {g}')
    for _ in range(rng.randint(1, max_ops)):
        k = rng.choice(kinds)
        if k == 'process':
            lines.append(f'op process {rng.choice(DTS)}')
        else:
            lines.append(f'op {k} {rng.choice(targets)}')
    return lines


def gen_raise(rng, tier):
    """C08/C09: ordinary coroutines, one (sometimes two) of which leaves its body with an exception
    (quit_loop() / switch() inside a coroutine, or a bug) while others are queued in front of it
    and behind it; the caller catches the exception and keeps calling process()."""
    n = rng.randint(2, 5)
    raisers = rng.sample(range(n), 1 if rng.random() < 0.8 else 2)
    waits = rng.choice([['N'], ['N', 'N', '0', '-1'], ['N', 'N', '2', '8'], WAITS])
    lines = []
    for g in range(n):
        k = rng.randint(4, 9)
        steps = [f'yield {rng.choice(waits)}' for _ in range(k)]
        if g in raisers:
            steps[rng.randrange(0, min(k, 4))] = f'raise {rng.choice(EXCS)}'
        elif rng.random() < 0.15:
            steps[rng.randrange(k)] = f'kill {g} ; yield N'         # kills itself, others behind it
        lines.append(f'gen {g} : ' + ' | '.join(steps + ['ret N']))
    order = list(range(n))
    rng.shuffle(order)
    late = order.pop() if n > 2 and rng.random() < 0.3 else None
    for g in order:
        lines.append(f'op start {g}')
    for f in range(rng.randint(6, 12)):
        if late is not None and rng.random() < 0.3:
            lines.append(f'op start {late}')
            late = None
        lines.append(f'op process {rng.choice([0, 1, 1, 2, 8])}')
        if rng.random() < 0.1:
            lines.append(f'op state {rng.randrange(n)}')
    for g in raisers:
        lines += [f'op state {g}', f'op kill {g}']
    lines.append('op process 1')
    return lines


def gen_self_kill(rng, tier):
    """C08/C09: a coroutine kills itself (as through its own promise) from inside its body while
    other coroutines are queued behind it and in front of it; some restart themselves at once."""
    n = rng.randint(2, 5)
    lines = []
    killers = rng.sample(range(n), rng.randint(1, min(2, n)))
    for g in range(n):
        k = rng.randint(3, 7)
        steps = [f'yield {rng.choice(["N", "N", "N", "0", "2"])}' for _ in range(k)]
        if g in killers:
            acts = [f'kill {g}'] + ([f'start {g}'] if rng.random() < 0.3 else [])
            steps[rng.randrange(k)] = ' ; '.join(acts + [f'yield {rng.choice(["N", "N", "4"])}'])
        lines.append(f'gen {g} : ' + ' | '.join(steps + ['ret N']))
    order = list(range(n))
    rng.shuffle(order)
    for g in order:
        lines.append(f'op start {g}')
    for f in range(rng.randint(5, 10)):
        lines.append(f'op process {rng.choice([1, 1, 2])}')
        if rng.random() < 0.1:
            g = rng.choice(killers)
            lines.append(f'op start {g}')
    return lines


def gen_same_wait(rng, tier):
    """C09: several coroutines yield the SAME positive wait in the same frame (equal deadlines in
    the wait heap); then waiting ones are killed and immediately started again - from outside, or
    by a controller coroutine from its body - each in turn; then enough frames to pass the deadline.
    A restart must not disturb anybody else's wait, the restarted one must not wake a second time."""
    n = rng.randint(2, 4)
    w = rng.choice([4, 8, 16, 24, 40])
    lead = rng.choice([0, 0, 1])                     # frames before the common sleep
    victims = list(range(n))
    rng.shuffle(victims)
    victims = victims[:rng.randint(1, n)]
    in_body = rng.random() < 0.35
    lines = []
    for g in range(n):
        second = rng.choice(['N', '1', str(w), str(2 * w), '800'])
        steps = ['yield N'] * lead + [f'yield {w}', f'yield {second}', f'yield {rng.choice(WAITS)}',
                                      f'ret {rng.choice(["N", "3", "7"])}']
        lines.append(f'gen {g} : ' + ' | '.join(steps))
    if in_body:
        acts = []
        for v in victims:
            acts += [f'kill {v}', f'start {v}'] + ([f'state {v}'] if rng.random() < 0.5 else [])
        ctl = ['yield N'] * (lead + 1) + [' ; '.join(acts + ['yield N']), 'yield N', 'ret N']
        lines.append(f'gen {n} : ' + ' | '.join(ctl))
    order = list(range(n))
    rng.shuffle(order)
    for g in order:
        lines.append(f'op start {g}')
    if in_body:
        lines.append(f'op start {n}')
    dt = rng.choice([1, 2, 4, w // 4 or 1])
    for _ in range(lead + 1):
        lines.append(f'op process {dt}')
    if not in_body:
        for v in victims:
            if rng.random() < 0.3:
                lines.append(f'op process {rng.choice([0, 1])}')
            lines.append(f'op kill {v}')
            if rng.random() < 0.15:
                lines.append(f'op state {v}')
            lines.append(f'op start {v}')
            if rng.random() < 0.3:
                lines.append(f'op state {v}')
    elapsed = 0
    while elapsed <= 2 * w + 8:
        d = rng.choice([dt, dt, 1, 4, 8])
        lines.append(f'op process {d}')
        elapsed += d
        if rng.random() < 0.08:
            v = rng.randrange(n)
            lines += [f'op kill {v}', f'op start {v}']
    for g in range(n):
        lines.append(f'op value {g}')
    return lines


# small-scope exhaustive enumeration -------------------------------------------------------------
ENUM_SCRIPTS = [
    # a waiter that a second generator kills and restarts from its body
    ['gen 0 : yield N | yield 8 | yield N | ret 1',
     'gen 1 : yield N | kill 0 ; start 0 ; yield 4 | state 0 ; kill 1 ; ret 2'],
    # self-kill / self-restart, start of a third generator from a body
    ['gen 0 : kill 0 ; start 0 ; yield 4 | kill 0 ; yield N | ret N',
     'gen 1 : start 0 ; yield 8 | kill 0 ; ret 3'],
    # two sleepers with exactly the same deadline (family 2 is enumerated behind ENUM_PREFIX[2])
    ['gen 0 : yield 8 | yield 4 | ret 0',
     'gen 1 : yield 8 | yield 16 | ret 1'],
]
ENUM_PREFIX = {2: ['op start 0', 'op start 1', 'op process 4']}
ENUM_OPS = ['start 0', 'kill 0', 'start 1', 'kill 1', 'process 4', 'process 8']


def enum_lifecycle(max_len, families=(0,)):
    """every history of at most max_len operations over ENUM_OPS, for the given script families"""
    import itertools
    for f in families:
        for n in range(1, max_len + 1):
            for ops in itertools.product(ENUM_OPS, repeat=n):
                yield ENUM_SCRIPTS[f] + ENUM_PREFIX.get(f, []) + [f'op {o}' for o in ops]


# number types, decoy instances, worlds ----------------------------------------------------------
def typed(rng, tok, p=0.6):
    """the same number written for another Python type where the value allows it: fractions.Fraction
    always, int for whole seconds, bool for 0 and 1 s (none: float)"""
    if tok == 'N' or rng.random() > p:
        return tok
    k = int(tok)
    kinds = ['F', 'F']
    if k % 8 == 0:
        kinds += ['I', 'I']
    if k in (0, 8):
        kinds += ['B']
    return rng.choice(kinds) + tok


def retype(rng, lines, p=0.6):
    """rewrite the waits and the dt values of a scenario in a mix of numeric types"""
    out = []
    for ln in lines:
        t = ln.split()
        if t and t[0] == 'gen':
            for i in range(len(t) - 1):
                if t[i] == 'yield':
                    t[i + 1] = typed(rng, t[i + 1], p)
            ln = ' '.join(t)
        elif t[:2] == ['op', 'process']:
            ln = f'op process {typed(rng, t[2], p)}'
        out.append(ln)
    return out


def with_decoy(rng, main, decoy, k=1):
    """two independent scenarios side by side in one program: the second one as instance @k, its
    operations interleaved at random with those of the first"""
    a_decl = [ln for ln in main if not ln.startswith('op ')]
    a_ops = [ln for ln in main if ln.startswith('op ')]
    b_decl = [f'@{k} {ln}' for ln in decoy if not ln.startswith('op ')]
    b_ops = [f'@{k} {ln}' for ln in decoy if ln.startswith('op ')]
    ops = []
    while a_ops or b_ops:
        src = a_ops if (a_ops and (not b_ops or rng.random() < len(a_ops) / (len(a_ops) + len(b_ops)))) \
            else b_ops
        ops.append(src.pop(0))
    return a_decl + b_decl + ops


def gen_two_clocks(rng, tier):
    """C08: two (sometimes three) processors with sleeping coroutines, driven interleaved with
    different dt - each keeps its own time"""
    n = rng.choice([2, 2, 3])
    scen = gen_timing(rng, tier)
    for k in range(1, n):
        scen = with_decoy(rng, scen, gen_timing(rng, tier), k)
    return scen


def gen_world(rng, tier):
    """C09: the processor lives in a World; coroutines are started through @desper.coroutine (world=
    argument and default-loop form) and directly, the world's CoroutineProcessor is replaced and
    removed on the way, world.process drives whatever processor is current"""
    n = rng.randint(1, 4)
    lines = ['world'] + [gen_script(rng, g, n, rng.randint(1, 5), rng.choice([0.0, 0.2]), WAITS,
                                    rng.choice([0.2, 0.5])) for g in range(n)]
    has = True
    for _ in range(rng.randint(4, 22)):
        r = rng.random()
        g = rng.randrange(n + (1 if rng.random() < 0.05 else 0))
        if r < 0.30:
            lines.append(f'op {rng.choice(["dstart", "dstart", "dstart0"])} {g}')
        elif r < 0.36 and has:
            lines.append(f'op start {g}')
        elif r < 0.44 and has:
            lines.append(f'op kill {g}')
        elif r < 0.50 and has:
            lines.append(f'op state {g}')
        elif r < 0.56:
            lines.append(f'op value {g}')
        elif r < 0.66:
            lines.append('op replace')
            has = True
        elif r < 0.70:
            lines.append('op remove')
            has = False
        else:
            lines.append(f'op process {rng.choice(DTS)}')
    return lines


def gen_supervisor(rng, tier):
    """C08/C09: supervisor coroutines - bodies whose steps call the processor API re-entrantly on
    OTHER coroutines of the same processor (kill / start / restart / state of sleeping, running,
    finished and kill-pending ones) and then yield a positive wait, a bare yield, return or raise;
    enough frames follow for every wait to elapse, so a coroutine that is lost or woken at the wrong
    time shows."""
    workers = rng.randint(2, 4)
    sup = rng.randint(1, 2)
    n = workers + sup
    waits = [4, 8, 12, 16, 24]
    lines = []
    for g in range(workers):
        kind = rng.random()
        if kind < 0.6:          # sleeper
            steps = [f'yield {rng.choice(waits)}', f'yield {rng.choice(["N", "N", "4", "8"])}',
                     f'yield {rng.choice(waits)}', 'yield N']
        elif kind < 0.85:       # ticker
            steps = ['yield N'] * rng.randint(3, 8)
        else:                   # finishes quickly
            steps = ['yield N'] * rng.randint(0, 1)
        lines.append(f'gen {g} : ' + ' | '.join(steps + [f'ret {rng.choice(["N", "1", "7"])}']))
    for g in range(workers, n):
        steps = []
        for _ in range(rng.randint(2, 6)):
            acts = []
            for _ in range(rng.randint(1, 3)):
                h = rng.randrange(n) if rng.random() < 0.9 else g
                a = rng.choice(['kill', 'kill', 'kill', 'start', 'state'])
                acts.append(f'{a} {h}')
                if a == 'kill' and rng.random() < 0.35:
                    acts.append(f'start {h}')                  # pause / resume
            r = rng.random()
            if r < 0.5:
                end = f'yield {rng.choice(waits)}'
            elif r < 0.9:
                end = f'yield {rng.choice(["N", "N", "0"])}'
            else:
                end = f'raise {rng.choice(EXCS)}'
            steps.append(' ; '.join(acts + [end]))
        lines.append(f'gen {g} : ' + ' | '.join(steps + [f'state {rng.randrange(n)} ; ret N']))
    order = list(range(n))
    rng.shuffle(order)
    for g in order:
        lines.append(f'op start {g}')
    elapsed = 0
    while elapsed < 80:
        d = rng.choice([1, 2, 4, 4, 8])
        lines.append(f'op process {d}')
        elapsed += d
        r = rng.random()
        if r < 0.06:
            lines.append(f'op start {rng.randrange(n)}')
        elif r < 0.10:
            lines.append(f'op kill {rng.randrange(workers)}')
    for g in range(n):
        lines.append(f'op value {g}')
    return lines
