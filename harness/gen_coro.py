"""Seeded scenario generators for the `coro` model (C08, C09)."""

WAITS = ['N', '0', '-1', '-8'] + [str(k) for k in (1, 2, 3, 4, 8, 12, 16, 24, 32)]
DTS = [0, 1, 2, 3, 4, 8, 12, 16]


def gen_step(rng, n, act_p, waits, targets):
    acts = []
    while rng.random() < act_p and len(acts) < 3:
        acts.append(f'{rng.choice(["start", "kill", "kill", "state"])} {rng.choice(targets)}')
    return acts


def gen_script(rng, g, n, max_steps, act_p, waits, wait_p=0.5):
    """steps ending in a yield, then a final `ret` step (every script ends with exactly one ret)"""
    targets = list(range(n)) + [g, g] + ([n] if rng.random() < 0.2 else [])
    steps = []
    for _ in range(rng.randint(0, max_steps)):
        acts = gen_step(rng, n, act_p, waits, targets)
        w = rng.choice(waits) if rng.random() < wait_p else rng.choice(['N', 'N', '0', '-1'])
        steps.append(' ; '.join(acts + [f'yield {w}']))
    acts = gen_step(rng, n, act_p, waits, targets)
    steps.append(' ; '.join(acts + [f'ret {rng.choice(["N", "0", "5", "-3", "7"])}']))
    return f'gen {g} : ' + ' | '.join(steps)


def gen_timing(rng, tier):
    """C08: 1-6 scripts without in-body actions, uneven dt, starts at arbitrary frames."""
    n = rng.randint(1, 6)
    style = rng.random()
    waits = WAITS if style < 0.6 else rng.sample(WAITS, 3) + ['N']
    dts = DTS if style < 0.5 else rng.sample(DTS, 2) + [rng.choice(DTS)]
    lines = [gen_script(rng, g, n, rng.randint(2, 14), 0.0, waits, rng.choice([0.3, 0.6, 0.9]))
             for g in range(n)]
    unstarted = list(range(n))
    rng.shuffle(unstarted)
    for _ in range(rng.randint(1, n)):
        lines.append(f'op start {unstarted.pop()}')
    for _ in range(rng.randint(20, 60)):
        if unstarted and rng.random() < 0.15:
            lines.append(f'op start {unstarted.pop()}')
        elif rng.random() < 0.03:
            lines.append(f'op start {rng.randrange(n)}')       # mostly refused: already running
        lines.append(f'op process {rng.choice(dts)}')
    return lines


def gen_lifecycle(rng, tier, max_gens=4, max_ops=25):
    """C09: interleavings of start/kill/state/process/value from outside and inside bodies."""
    n = rng.randint(1, max_gens)
    act_p = rng.choice([0.0, 0.2, 0.4, 0.6])
    lines = [gen_script(rng, g, n, rng.randint(0, 6), act_p, WAITS, rng.choice([0.2, 0.5]))
             for g in range(n)]
    targets = list(range(n)) * 3 + [n]
    kinds = ['start'] * 4 + ['kill'] * 3 + ['state'] + ['process'] * 5 + ['value']
    for g in range(n):
        if rng.random() < 0.6:
            lines.append(f'op start {g}')
    for _ in range(rng.randint(1, max_ops)):
        k = rng.choice(kinds)
        if k == 'process':
            lines.append(f'op process {rng.choice(DTS)}')
        else:
            lines.append(f'op {k} {rng.choice(targets)}')
    return lines


# small-scope exhaustive enumeration -------------------------------------------------------------
ENUM_SCRIPTS = [
    # a waiter that a second generator kills and restarts from its body
    ['gen 0 : yield N | yield 8 | yield N | ret 1',
     'gen 1 : yield N | kill 0 ; start 0 ; yield 4 | state 0 ; kill 1 ; ret 2'],
    # self-kill / self-restart, start of a third generator from a body
    ['gen 0 : kill 0 ; start 0 ; yield 4 | kill 0 ; yield N | ret N',
     'gen 1 : start 0 ; yield 8 | kill 0 ; ret 3'],
]
ENUM_OPS = ['start 0', 'kill 0', 'start 1', 'kill 1', 'process 4', 'process 8']


def enum_lifecycle(max_len, families=(0,)):
    """every history of at most max_len operations over ENUM_OPS, for the given script families"""
    import itertools
    for f in families:
        for n in range(1, max_len + 1):
            for ops in itertools.product(ENUM_OPS, repeat=n):
                yield ENUM_SCRIPTS[f] + [f'op {o}' for o in ops]
