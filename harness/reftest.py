"""Try a behaviour-preserving refactoring against every registered check: all must exit 0.

    python3 harness/reftest.py <worktree> <patch.diff> <label>
"""
import concurrent.futures
import json
import os
import pathlib
import subprocess
import sys

VERIF = pathlib.Path(__file__).resolve().parent.parent


def sh(cmd, cwd=None, env=None):
    p = subprocess.run(cmd, shell=True, cwd=cwd, env=env, stdout=subprocess.PIPE, stderr=subprocess.STDOUT, text=True)
    return p.returncode, p.stdout


def run_check(pid, wt):
    env = dict(os.environ, DESPER_REPO=wt, VERIF_SEED='0', VERIF_EVIDENCE_DIR='/tmp/ref-evidence')
    rc, out = sh(f'./check {pid} --tier quick', cwd=VERIF, env=env)
    return pid, rc, [l for l in out.splitlines() if l.startswith(('VIOLATION', '  ', 'MACHINERY'))][:3]


def main():
    wt, patch, label = sys.argv[1:4]
    rc, out = sh('git status --porcelain --untracked-files=no', cwd=wt)
    assert out.strip() == '', out
    rc, out = sh(f'git apply {patch}', cwd=wt)
    assert rc == 0, out
    res = {'label': label}
    try:
        rc, out = sh('/venv/bin/python -m pytest -q -p no:cacheprovider tests 2>&1 | tail -1', cwd=wt)
        res['tests'] = out.strip()
        rc, files = sh('git diff --name-only', cwd=wt)
        math_touched = 'math.py' in files
        pids = [c['property_id'] for c in json.loads((VERIF / 'MANIFEST.json').read_text())['checks']]
        others = [p for p in pids if p != 'C18']
        alarms = {}
        with concurrent.futures.ThreadPoolExecutor(max_workers=8) as ex:
            for pid, rc, lines in ex.map(lambda p: run_check(p, wt), others):
                if rc != 0:
                    alarms[pid] = {'exit': rc, 'lines': lines}
        if math_touched:
            pid, rc, lines = run_check('C18', wt)
            if rc != 0:
                alarms[pid] = {'exit': rc, 'lines': lines}
        res['alarms'] = alarms
    finally:
        sh('git checkout -- .', cwd=wt)
        if 'math.py' in res.get('tests', '') or True:
            pass
    print(json.dumps(res, indent=1))
    if any('math.py' in f for f in files.split()):
        run_check('C18', '/repo')


if __name__ == '__main__':
    main()
