"""Executable statement of the World properties (C01, C02, C05, C06, C07, C19) — the *oracle*.

Written from the property texts, independent of desper and of the Lean model: ONE table
`attached[entity][exact type] = component`, a set of entities awaiting deletion, a stably sorted
processor list, a FIFO of postponed callbacks.  It walks the implementation's observation stream
and validates every line: deterministic observables must be equal to what the statement requires,
and where the statement leaves a choice (which of several matching subtypes a single-result query
returns, the order in which entities awaiting deletion are swept) the implementation's answer is
accepted iff it is one of the allowed ones.

`check(lines, obs)` -> list of violations {'sig': '<clause>[:<territory>]', 'what': ...}
(the caller prefixes the property id and filters by the observables its property names).
"""
from harness.models.disp import split_list


class Mismatch(Exception):
    def __init__(self, clause, what):
        self.clause, self.what = clause, what


class Spec:
    def __init__(self, lines):
        self.kind, self.bases, self.prio, self.maps = [], [], [], []
        self.objty = {}
        self.raises = {}
        self.reacts = {}          # (obj, method, k) -> entity the callback passes to delete_entity
        self.react_ops = {}       # (obj, method, k) -> operations the callback performs on the world
        self.forgotten = set()    # objects the program has dropped its references to
        self.ops = []
        self.ents = []
        self.sweeps = []
        for ln in lines:
            t = ln.split()
            if not t:
                continue
            if t[0] == 'class':
                d = dict(x.split('=', 1) for x in t[2:])
                bases = [int(b) for b in split_list(d['bases'])]
                names = split_list(d['names'])
                kw = [p.split(':') for p in split_list(d['kw'])]
                inh = next((self.maps[b] for b in bases if self.maps[b] is not None), None)
                if inh is None and d['kind'] == 'ctrl':
                    inh = {'on_add': 'on_add'}
                if not names and not kw:
                    m = inh
                else:
                    m = dict(inh or {})
                    m.update({n: n for n in names})
                    m.update({k: v for k, v in kw})
                self.kind.append(d['kind'])
                self.bases.append(bases)
                self.prio.append(int(d['prio']))
                self.maps.append(m)
            elif t[0] == 'obj':
                self.objty[int(t[1])] = int(t[2].split('=')[1])
            elif t[0] == 'raise':
                self.raises[(int(t[1]), t[2], int(t[3]))] = t[4]
            elif t[0] == 'react' and t[4] == 'do':
                from harness.models.disp import parse_ops
                self.react_ops[(int(t[1]), t[2], int(t[3]))] = parse_ops(t[5:])
            elif t[0] == 'react':
                self.reacts[(int(t[1]), t[2], int(t[3]))] = int(t[5])
            elif t[0] == 'ents':
                self.ents = [int(x) for x in split_list(t[1])]
            elif t[0] == 'op':
                self.ops.append(t[1:])
        n = len(self.kind)
        self.anc = [set() for _ in range(n)]          # reflexive-transitive bases
        for k in range(n):
            self.anc[k].add(k)
            for b in self.bases[k]:
                self.anc[k] |= self.anc[b]
        self.attached = {}        # e -> {T: c}   (insertion ordered)
        self.dead = []
        self.counter = 1
        self.procs = []           # ordered
        self.iprio = {}
        self.pworld = set()
        self.registered = set()
        self.known = {'on_single_dispatch'}
        self.enabled = True
        self.pending = []         # postponed callbacks: ('life', event, o, ent) | ('plain', ev, args)
        self.calls = {}
        self.ctl = {}
        self.taint = None
        self.cur_cbs, self.cur_res = [], "ok"
        self.intent_prio = {}
        self.failed_op = None
        self.counter_unknown = False    # a callback may have created entities: the id counter moved
        self.unordered = set()          # entities whose component order is not known (after `adopt`)
        self.pending_unknown = False    # a release was cut short inside a re-entrant callback
        self.reentered = False          # some callback has called back into the world
        self.excused = set()            # handlers left registered by an on_remove that raised
        self.maybe_dead = set()         # identifiers a callback may have passed to delete_entity
        self.ambiguous = False
        self.findings = []
        self.failed = False       # a scripted callback exception has propagated

    # ------------------------------------------------------------------ helpers
    def issub(self, t, T):
        return T in self.anc[t]

    def mapping(self, o):
        return self.maps[self.objty[o]]

    def matching(self, e, T):
        row = self.attached.get(e, {})
        return [c for t, c in row.items() if self.issub(t, T)]

    def exact(self, e, T):
        return self.attached.get(e, {}).get(T)

    # ------------------------------------------------------------------ callbacks
    def call(self, o, meth, arg, out):
        k = self.calls.get((o, meth), 0)
        self.calls[(o, meth)] = k + 1
        out.append(f'cb {o} {meth} {arg}')
        x = self.reacts.get((o, meth, k))
        if x is not None and x not in self.dead:
            # the callback itself calls delete_entity(x): from now on x does not exist any more, its
            # components go at the start of the NEXT process() (if the running sweep still reaches x,
            # being awaiting deletion already, x goes now and the mark goes with it)
            self.dead.append(x)
        exc = self.raises.get((o, meth, k))
        if exc:
            raise ScriptedRaise(exc)

    def life(self, event, o, ent, out):
        m = self.mapping(o)
        if m is None or event not in m:
            return
        if self.enabled:
            self.fire_life(event, o, ent, out)
        else:
            self.pending.append(('life', event, o, ent))

    def fire_life(self, event, o, ent, out):
        if event == 'on_add' and self.kind[self.objty[o]] == 'ctrl' and ent is not None:
            self.ctl[o] = ent
        self.call(o, self.mapping(o)[event], '_' if ent is None else f'e{ent}', out)

    def attach_events(self, o, ent, out):
        m = self.mapping(o)
        if m is None:
            return
        self.registered.add(o)
        self.known |= set(m)
        self.life('on_add', o, ent, out)

    def detach_events(self, o, ent, out):
        m = self.mapping(o)
        if m is None:
            return
        # the callback comes first: a raising on_remove leaves the handler registered
        self.life('on_remove', o, ent, out)
        self.registered.discard(o)

    def plain(self, ev, args, out):
        for o in sorted(self.registered):
            m = self.mapping(o)
            if m and ev in m:
                self.call(o, m[ev], args, out)

    def dispatch(self, ev, args, out):
        if ev not in self.known:
            return
        if not self.enabled:
            self.pending.append(('plain', ev, args))
        else:
            self.plain(ev, args, out)

    # ------------------------------------------------------------------ operations
    def detach(self, e, T, out):
        row = self.attached[e]
        c = row.pop(T)
        if not row:
            del self.attached[e]
            if e in self.dead:
                self.dead.remove(e)
        self.detach_events(c, e, out)

    def detach_all(self, e, out):
        # (a callback of an earlier component may have detached a later one already: each is detached
        # once — with its on_remove — by whoever gets there first)
        row = self.attached[e]
        types = list(row)
        if e in self.unordered:
            # the order in which the entity received its components is not known (state taken over from the
            # queries): follow the order of the implementation's callbacks, every component still exactly once
            seen = [int(c.split()[1]) for c in self.cur_cbs if c.split()[1].isdigit()]
            types.sort(key=lambda T: seen.index(row[T]) if row[T] in seen else len(seen))
        for T in types:
            if T in self.attached.get(e, {}):
                self.detach(e, T, out)

    def op(self, t, ret, out):
        """Apply one operation; `ret` is the implementation's returned token (used as a validated
        hint for single-result removals).  Returns the required `ret` token."""
        k = t[0]
        if k == 'create':
            comps = [int(x) for x in split_list(t[2])]
            if t[1] == 'auto' and self.counter_unknown and ret is not None and ret.isdigit() \
                    and int(ret) >= self.counter and int(ret) not in self.attached:
                e = int(ret)
                self.counter, self.counter_unknown = e + 1, False
            elif t[1] == 'auto':
                while self.counter in self.attached:
                    self.counter += 1
                e = self.counter
                self.counter += 1
            else:
                e = int(t[1])
            types = [self.objty[c] for c in comps]
            last = {self.objty[c]: c for c in comps}
            shadowed = [c for c in comps if last[self.objty[c]] != c and self.mapping(c) is not None]
            if shadowed:
                # known-finding territory: the statement gives a never-attached instance nothing; the
                # oracle records that and then follows the implementation so later checks stay meaningful
                self.findings.append(('duplicate-type-in-create-entity',
                                      f'create_entity with two components of one type: {shadowed} never '
                                      'attached but given on_add / registered'))
            for T in list(self.attached.get(e, {})):
                if T in last:
                    self.detach(e, T, out)
            for c in comps:
                if last[self.objty[c]] == c:
                    self.attached.setdefault(e, {})[self.objty[c]] = c
            for c in comps:
                self.attach_events(c, e, out)
            return str(e)
        if k == 'add':
            e, c = int(t[1]), int(t[2])
            T = self.objty[c]
            if T in self.attached.get(e, {}):
                self.detach(e, T, out)
            self.attached.setdefault(e, {})[T] = c
            self.attach_events(c, e, out)
            return '-'
        if k == 'remove':
            e, T = int(t[1]), int(t[2])
            cands = self.matching(e, T)
            if not cands:
                return 'None'
            ex = self.exact(e, T)
            if ex is not None:
                choice = ex
            else:
                ret = self.choice_of(ret, cands)
                if ret is None or not ret.isdigit() or int(ret) not in cands:
                    raise Mismatch('remove-matches-subtype', f'remove_component({e}, {T}) returned {ret}, '
                                   f'attached matching components: {cands}')
                choice = int(ret)
            self.detach(e, self.objty[choice], out)
            return str(choice)
        if k == 'delete':
            e = int(t[1])
            if int(t[2]):
                if e not in self.attached:
                    raise ScriptedRaise('KeyError')
                self.detach_all(e, out)
            elif e not in self.dead:
                self.dead.append(e)
            return '-'
        if k == 'process':
            order = self.sweeps.pop(0) if self.sweeps else list(self.dead)
            extra = set(order) - set(self.dead)
            if extra and extra <= self.maybe_dead and set(self.dead) <= set(order):
                self.dead = list(order)
            if sorted(order) != sorted(self.dead):
                raise Mismatch('sweep-set', f'entities awaiting deletion {sorted(self.dead)}, swept {order}')
            self.dead = []
            for e in order:
                if e not in self.attached:
                    raise ScriptedRaise('KeyError')     # deleted an entity that never existed
                self.detach_all(e, out)
            for p in list(self.procs):
                self.call(p, 'process', t[1], out)
                if self.kind[self.objty[p]] == 'upd':
                    self.dispatch('on_update', t[1], out)
            return '-'
        if k == 'clear':
            ents = list(self.attached)
            if self.unordered:
                seen = [c.split()[3] for c in self.cur_cbs if len(c.split()) > 3]
                first = {}
                for i, a in enumerate(seen):
                    first.setdefault(a, i)
                ents.sort(key=lambda e: first.get(f'e{e}', len(seen)))
            for e in ents:
                self.detach_all(e, out)
            self.dead = []
            for p in list(self.procs):
                self.procs.remove(p)
                self.detach_events(p, None, out)
            if self.pending:
                # (also with dispatching enabled again, when a raising callback cut the release short and
                # left postponed callbacks in the queue: the same wipe of the queue)
                self.findings.append(('clear-while-disabled-loses-postponed',
                                      f'clear() with {len(self.pending)} postponed callbacks pending lost '
                                      f'them: {self.pending[:4]}'))
                self.pending = []
            self.counter = 1
            self.registered = set()
            self.known = {'on_single_dispatch'}
            # the statement: postponed callbacks are not lost (see taint above); dispatching is on again
            self.enabled = True
            return '-'
        if k == 'addproc':
            p = int(t[1])
            T = self.objty[p]
            for q in list(self.procs):
                if self.objty[q] == T:
                    self.procs.remove(q)
                    self.detach_events(q, None, out)
            if t[2] != '-':
                self.iprio[p] = int(t[2])
            pr = self.iprio.get(p, self.prio[T])
            i = len(self.procs)
            while i > 0 and self.iprio.get(self.procs[i - 1], self.prio[self.objty[self.procs[i - 1]]]) > pr:
                i -= 1
            self.procs.insert(i, p)
            self.pworld.add(p)
            self.attach_events(p, None, out)
            return '-'
        if k == 'rmproc':
            T = int(t[1])
            cands = [q for q in self.procs if self.issub(self.objty[q], T)]
            if not cands:
                return 'None'
            ex = [q for q in cands if self.objty[q] == T]
            if ex:
                choice = ex[0]
            else:
                ret = self.choice_of(ret, cands)
                if ret is None or not ret.isdigit() or int(ret) not in cands:
                    raise Mismatch('remove-matches-subtype', f'remove_processor({T}) returned {ret}, '
                                   f'matching processors: {cands}')
                choice = int(ret)
            self.procs.remove(choice)
            self.detach_events(choice, None, out)
            return str(choice)
        if k == 'forget':
            self.forgotten.add(int(t[1]))
            return '-'
        if k == 'enable':
            self.enabled = bool(int(t[1]))
            while self.enabled and self.pending:
                p = self.pending.pop(0)
                if p[0] == 'life':
                    self.fire_life(p[1], p[2], p[3], out)
                elif p[1] in self.known:
                    self.plain(p[1], p[2], out)
            return '-'
        if k == 'dispatch':
            self.dispatch(t[1], t[2], out)
            return '-'
        if k == 'via':
            # a shorthand has exactly the effect and result of the World call for the recorded entity
            kk, kind, a = int(t[1]), t[2], t[3:]
            if kk not in self.ctl:
                raise ScriptedRaise('AttributeError')
            e = str(self.ctl[kk])
            if kind in ('add', 'cset'):
                return self.op(['add', e, a[0]], ret, out)
            if kind == 'remove':
                return self.op(['remove', e, a[0]], ret, out)
            if kind == 'cdel':
                cands = self.matching(int(e), int(a[0]))
                ex = self.exact(int(e), int(a[0]))
                if cands:
                    # which subtype instance goes is not observable through `del`; take the exact one or,
                    # for a unique candidate, that one; otherwise leave the choice to later observations
                    choice = ex if ex is not None else cands[0]
                    if ex is None and len(cands) > 1:
                        self.ambiguous = True
                    self.detach(int(e), self.objty[choice], out)
                return '-'
            if kind == 'has':
                return str(bool(self.matching(int(e), int(a[0]))))
            if kind in ('get', 'cget'):
                cands = self.matching(int(e), int(a[0]))
                ex = self.exact(int(e), int(a[0]))
                if ex is not None:
                    return str(ex)
                if not cands:
                    return 'None'
                if ret is None or not ret.isdigit() or int(ret) not in cands:
                    raise Mismatch('get_component', f'via get({a[0]}) returned {ret}, matching {cands}')
                return ret
            if kind == 'comps':
                return ','.join(map(str, sorted(self.attached.get(int(e), {}).values()))) or '-'
            if kind == 'delete':
                return self.op(['delete', e, '0'], ret, out)
            if kind == 'pget':
                T = int(a[0])
                cands = [q for q in self.procs if self.issub(self.objty[q], T)]
                ex = [q for q in cands if self.objty[q] == T]
                if ex:
                    return str(ex[0])
                if not cands:
                    return 'None'
                if ret is None or not ret.isdigit() or int(ret) not in cands:
                    raise Mismatch('get_processor', f'via pget({T}) returned {ret}, matching {cands}')
                return ret
            if kind == 'pset':
                return self.op(['addproc', a[0], '-'], ret, out)
            if kind == 'pdel':
                T = int(a[0])
                cands = [q for q in self.procs if self.issub(self.objty[q], T)]
                ex = [q for q in cands if self.objty[q] == T]
                if cands:
                    choice = ex[0] if ex else cands[0]
                    if not ex and len(cands) > 1:
                        self.ambiguous = True
                    self.procs.remove(choice)
                    self.detach_events(choice, None, out)
                return '-'
        raise ValueError(t)

    # ------------------------------------------------------------------ after a propagated exception
    def adopt(self, snap, failed_op):
        """An operation was left through a scripted callback exception: the statement does not fix at
        which of its steps, so the state is taken over from the queries - `get` per exact type, `entities`,
        `processors`, `is_handler`, controllers - and `check_snapshot` then demands that every other
        query agrees with that state (C01/C06), that there is one processor per type in priority order
        (C07) and that no entity exists without components.  Later operations are judged from there."""
        ctys = [i for i, k in enumerate(self.kind) if k in ('c', 'ctrl')]
        get, entities, procs, ish, ctl, pw = {}, None, None, {}, {}, set()
        for ln in snap:
            t = ln.split()
            if t[-1].startswith('!'):
                self.check_snapshot([ln])       # a query that raises: reported there
            if t[0] == 'get':
                get[int(t[1])] = [tuple(int(x) for x in p.split(':')) for p in split_list(t[2])]
            elif t[0] == 'entities':
                entities = [int(x) for x in split_list(t[1])]
            elif t[0] == 'procs':
                procs = [int(x) for x in split_list(t[1])]
            elif t[0] == 'ish':
                ish[int(t[1])] = bool(int(t[2]))
            elif t[0] == 'ctl':
                ctl[int(t[1])] = t[2]
            elif t[0] == 'pw':
                pw = set(int(x) for x in split_list(t[1]))
        if entities is None or procs is None or any(T not in get for T in ctys):
            return False
        new = {}
        for T in ctys:
            for e, c in get[T]:
                if self.objty[c] != T:
                    continue
                if T in new.get(e, {}) and new[e][T] != c:
                    raise Mismatch('get', f'get({T}) lists two components of that exact type for entity {e}: '
                                   f'{new[e][T]} and {c}')
                new.setdefault(e, {})[T] = c
        # keep the known attachment order of what survived, append what is new
        merged = {}
        for e, row in self.attached.items():
            keep = {T: c for T, c in row.items() if new.get(e, {}).get(T) == c}
            if keep:
                merged[e] = keep
        for e, row in new.items():
            for T, c in row.items():
                if T not in merged.get(e, {}):
                    self.unordered.add(e)
                merged.setdefault(e, {}).setdefault(T, c)
        for e in entities:
            if e not in merged:
                raise Mismatch('get', f'entities lists {e}, but get() lists no component for it under any type')
        # (identifiers that own nothing and await deletion are shown by no query: they stay as known - after
        # a process() that was left by an exception these are the ones its callbacks asked for, the sweep
        # itself starts from an emptied set)
        # exactly-once lifecycle across the exception: whatever the failed operation detached got its
        # on_remove (dispatching enabled, no re-entrant callbacks, no operation since then unseen)
        if self.enabled and not self.reentered and failed_op != 'enable' and not getattr(self, 'skipped', 0):
            for e, row in self.attached.items():
                for T, c in row.items():
                    m = (self.mapping(c) or {}).get('on_remove')
                    if merged.get(e, {}).get(T) != c and m and not any(
                            cb.split()[1] == str(c) and cb.split()[2] == m for cb in self.cur_cbs):
                        raise Mismatch('missing-callback', f'`{failed_op}` was left by an exception and detached '
                                       f'component {c} of entity {e} without its on_remove callback ({m})')
        unknown = [] if failed_op == 'process' and self.reentered else [
            x for x in self.dead if x not in merged and x not in self.attached]
        self.attached = merged
        self.dead = [e for e in merged if e not in entities] + unknown
        seen = {}
        for q in procs:
            T = self.objty[q]
            if T in seen and not self.reentered:
                raise Mismatch('processors-order', f'processors {procs} holds two processors of one type '
                               f'({seen[T]} and {q})')
            seen[T] = q
        pr = [self.iprio.get(q, self.intent_prio.get(q, self.prio[self.objty[q]])) if q in self.procs
              else self.intent_prio.get(q, self.iprio.get(q, self.prio[self.objty[q]])) for q in procs]
        if pr != sorted(pr) and not self.reentered:
            raise Mismatch('processors-order', f'processors {procs} with priorities {pr} are not in '
                           'ascending priority order')
        for q, x in zip(procs, pr):
            if x != self.prio[self.objty[q]]:
                self.iprio[q] = x
        self.procs = procs
        self.pworld = set(self.pworld) & pw | set(procs)
        self.registered = {o for o, v in ish.items() if v}
        for o in self.registered:
            self.known |= set(self.mapping(o) or {})
        for o, v in ctl.items():
            if v == 'collected':
                continue
            if v == 'None':
                self.ctl.pop(o, None)
            else:
                self.ctl[o] = int(v)
        return True

    def choice_of(self, ret, cands):
        """Which of several matching candidates a removal picked: its return value; when the call did not
        return because the on_remove callback of the removed object raised, the object that callback
        belongs to."""
        if (ret is None or not ret.isdigit()) and self.cur_res.startswith('raised') and self.cur_cbs:
            last = self.cur_cbs[-1].split()
            if last[1].isdigit() and int(last[1]) in cands:
                return last[1]
        return ret

    # ------------------------------------------------------------------ snapshot validation
    def check_snapshot(self, snap):
        ctys = [i for i, k in enumerate(self.kind) if k in ('c', 'ctrl')]
        for ln in snap:
            t = ln.split()
            tag = t[0]
            if t[-1].startswith('!'):
                clause = {'get': 'get', 'getall': 'get', 'row': 'get_components', 'exists': 'entity_exists', 'has': 'has_component', 'hasx': 'has_component',
                          'entities': 'entities', 'procs': 'processors-order', 'gp': 'get_processor', 'gpx': 'get_processor',
                          'ish': 'registered-iff-attached'}.get(tag, tag)
                raise Mismatch(clause, f'query `{" ".join(t[:-1])}` raised {t[-1][1:]}')
            if tag == 'get':
                T = int(t[1])
                want = sorted(e * 100000 + c for e, row in self.attached.items() for ty, c in row.items()
                              if self.issub(ty, T))
                w = ','.join(f'{p // 100000}:{p % 100000}' for p in want) or '-'
                if t[2] != w:
                    dup = len(set(split_list(t[2]))) != len(split_list(t[2]))
                    raise Mismatch('get-lists-pair-twice' if dup else 'get', f'get({T}) = {t[2]}, required {w}')
            elif tag == 'hasx':
                for j, name in zip(range(2, len(t), 3), ('the protocol EventHandler', 'collections.abc.Hashable',
                                                         'collections.abc.Sized', 'an ABC the component classes '
                                                         'are registered with')):
                    if len(set(t[j:j + 3])) != 1:
                        raise Mismatch('has_component', f'queries by {name} (no base class of any component) '
                                       f'disagree for entity {t[1]}: has_component={t[j]} '
                                       f'get_component={t[j + 1]} get()={t[j + 2]}')
            elif tag == 'gpx':
                if (t[1] == 'None') != (not self.procs) or (t[1] != 'None' and int(t[1]) not in self.procs):
                    raise Mismatch('get_processor', f'get_processor(<a plain mixin every processor class derives '
                                   f'from>) = {t[1]}, processors: {self.procs}')
            elif tag == 'getall':
                want = sorted(e * 100000 + c for e, row in self.attached.items() for c in row.values())
                w = ','.join(f'{p // 100000}:{p % 100000}' for p in want) or '-'
                if t[1] != w:
                    raise Mismatch('get', f'get(object) = {t[1]}, required every attached component: {w}')
            elif tag == 'row':
                e = int(t[1])
                w = ','.join(map(str, sorted(self.attached.get(e, {}).values()))) or '-'
                if t[2] != w:
                    raise Mismatch('get_components', f'get_components({e}) = {t[2]}, required {w}')
            elif tag == 'exists':
                e = int(t[1])
                w = int(e in self.attached and e not in self.dead)
                if int(t[2]) != w:
                    raise Mismatch('entity_exists', f'entity_exists({e}) = {t[2]}, required {w}')
            elif tag == 'has':
                e, T = int(t[1]), int(t[2])
                cands = self.matching(e, T)
                if int(t[3]) != int(bool(cands)):
                    raise Mismatch('has_component', f'has_component({e}, {T}) = {t[3]}, matching: {cands}')
                ex = self.exact(e, T)
                if ex is not None:
                    ok = t[4] == str(ex)
                else:
                    ok = (t[4] == 'None' and not cands) or (t[4].isdigit() and int(t[4]) in cands)
                if not ok:
                    raise Mismatch('get_component', f'get_component({e}, {T}) = {t[4]}, matching: {cands}, '
                                   f'exact: {ex}')
                if len(t) > 5 and t[5] != ('D' if t[4] == 'None' else t[4]):
                    raise Mismatch('get_component', f'get_component({e}, {T}, default) = {t[5]} but without a '
                                   f'default it returns {t[4]} (D: the default itself)')
            elif tag == 'entities':
                w = ','.join(map(str, sorted(e for e in self.attached if e not in self.dead))) or '-'
                if t[1] != w:
                    raise Mismatch('entities', f'entities = {t[1]}, required {w}')
            elif tag == 'procs':
                w = ','.join(map(str, self.procs)) or '-'
                if t[1] != w:
                    raise Mismatch('processors-order', f'processors = {t[1]}, required {w}')
            elif tag == 'gp':
                T = int(t[1])
                cands = [q for q in self.procs if self.issub(self.objty[q], T)]
                ex = [q for q in cands if self.objty[q] == T]
                ok = (t[2] == str(ex[0])) if ex else ((t[2] == 'None' and not cands) or
                                                      (t[2].isdigit() and int(t[2]) in cands))
                if not ok:
                    raise Mismatch('get_processor', f'get_processor({T}) = {t[2]}, matching: {cands}')
            elif tag == 'pw':
                have = set(int(x) for x in split_list(t[1]))
                if not self.pworld <= have:
                    raise Mismatch('processor-world', f'processors knowing their world {sorted(have)}, '
                                   f'required at least {sorted(self.pworld)}')
            elif tag == 'ish':
                o = int(t[1])
                if int(t[2]) != int(o in self.registered):
                    raise Mismatch('registered-iff-attached', f'is_handler({o}) = {t[2]}, required '
                                   f'{int(o in self.registered)}')
            elif tag == 'alive':
                # C10: the world never keeps an object alive that it does not hold as a component or
                # processor (a postponed lifecycle callback naming it may, until it is delivered)
                o = int(t[1])
                held = any(o in row.values() for row in self.attached.values()) or o in self.procs
                pending = any(p[0] == 'life' and p[2] == o for p in self.pending)
                if held and t[2] != '1':
                    raise Mismatch('collected-while-attached', f'object {o} is attached but was collected')
                if not held and not pending and t[2] != '0':
                    raise Mismatch('kept-alive', f'object {o} is neither a component nor a processor of the '
                                   'world and the program dropped it, yet it is still alive')
            elif tag == 'ctl' and t[2] == 'collected':
                if int(t[1]) not in self.forgotten:
                    raise Mismatch('shape', f'{ln}: the object was never forgotten')
            elif tag == 'ctl':
                o = int(t[1])
                w = str(self.ctl.get(o, 'None'))
                if t[2] != w or len(t) > 3:
                    raise Mismatch('controller-owner', f'controller {o}: entity {t[2:]}, required {w}')
            elif tag == 'enabled':
                pass


class ScriptedRaise(Exception):
    def __init__(self, name):
        self.name = name


def split_ops(obs):
    """Group the observation stream: per op either ('op', cbs, res, ret) or ('snap', lines)."""
    groups, cur, snap = [], [], []
    i = 0
    while i < len(obs):
        o = obs[i]
        tag = o.split()[0]
        if tag == 'hint':
            pass
        elif tag == 'cb':
            cur.append(o)
        elif tag == 'res':
            ret = obs[i + 1][4:] if i + 1 < len(obs) and obs[i + 1].startswith('ret ') else None
            groups.append(('op', cur, o[4:], ret))
            cur = []
            i += 1
        else:
            # snapshot lines up to and including `enabled`
            snap.append(o)
            if tag == 'enabled':
                groups.append(('snap', snap))
                snap = []
        i += 1
    return groups


def check(lines, obs):
    sp = Spec(lines)
    sp.sweeps = [[int(x) for x in split_list(l.split()[2])] for l in obs if l.startswith('hint sweep')]
    if obs == ['hang']:
        return [{'sig': 'hang', 'what': 'the scenario did not terminate'}]
    groups = split_ops(obs)
    gi = 0
    vs = _check_ops(sp, groups)
    return [{'sig': c, 'what': w} for c, w in sp.findings] + vs


def _check_ops(sp, groups):
    gi = 0
    for t in sp.ops:
        if gi >= len(groups):
            return [{'sig': 'truncated', 'what': f'no observation for `{" ".join(t)}`'}]
        g = groups[gi]
        gi += 1
        territory = lambda: (':' + sp.taint) if sp.taint else ''   # noqa
        if t[0] == 'snap':
            if g[0] != 'snap':
                return [{'sig': 'shape', 'what': f'expected snapshot lines, got {g}'}]
            try:
                if sp.failed:
                    mode = sp.failed
                    if not sp.adopt(g[1], sp.failed_op):
                        continue
                    sp.failed = False
                sp.check_snapshot(g[1])
            except Mismatch as m:
                return [{'sig': m.clause + territory(), 'what': m.what}]
            continue
        if g[0] != 'op':
            return [{'sig': 'shape', 'what': f'expected op result for `{" ".join(t)}`, got {g[1][:2]}'}]
        _, cbs, res, ret = g
        if sp.failed:
            sp.skipped = getattr(sp, 'skipped', 0) + 1
            # after a callback exception propagated the statement only demands (C05) that process()
            # does not keep failing because of deletion bookkeeping (one KeyError is legitimate after
            # a delete_entity of an id that may not exist)
            if t[0] == 'enable' or not sp.enabled:
                # callbacks were postponed or released that the oracle did not follow (no snapshot since the
                # exception): from here on the scenario is judged by the agreement of the queries only
                sp.reentered = True
                if t[0] == 'enable':
                    sp.enabled = bool(int(t[1]))
                    if sp.enabled:
                        sp.pending, sp.pending_unknown = [], res != 'ok'
            if t[0] == 'delete' and not int(t[2]):
                sp.failed = 'deleted'
            elif t[0] == 'create' and t[1] == 'auto':
                sp.counter_unknown = True       # an identifier was drawn that the oracle did not see
            elif t[0] == 'process':
                if sp.sweeps:
                    sp.sweeps.pop(0)        # (the hint of this frame: keep the later ones aligned)
                # (callbacks that call back into the world may ask for deletions of their own at any time)
                if res == 'raised KeyError' and sp.failed != 'deleted' and not sp.reentered:
                    return [{'sig': 'process-keeps-failing',
                             'what': 'process() raised KeyError again on a later frame'}]
                sp.failed = True
            continue
        # does a callback of this operation call back into the world (scripted `react … do …`)?  The statement
        # does not fix how the nested calls interleave with the steps of the operation in progress (that
        # is the model's business: it mirrors the code statement by statement and is compared exactly);
        # the oracle takes such an operation as it comes, keeps its invocation counters in step, and judges
        # the world it leaves behind: every query must agree with every other one at the next snapshot
        fired, calls = False, dict(sp.calls)
        for cb in cbs:
            w = cb.split()
            if w[1].isdigit():
                key = (int(w[1]), w[2])
                k = calls.get(key, 0)
                calls[key] = k + 1
                fired = fired or (key[0], key[1], k) in sp.react_ops
        # from the first such operation on, what the world cannot show through its queries (instance
        # priorities, the id counter, postponed callbacks, marks on identifiers that own nothing) is no
        # longer known to the oracle: the rest of the scenario is judged by the agreement of the queries at
        # every snapshot, the exact behaviour by the comparison with the model
        fired = fired or sp.reentered
        if fired:
            sp.reentered = True
            sp.calls = calls
            if t[0] == 'process' and sp.sweeps:
                sp.sweeps.pop(0)
            if not sp.enabled and t[0] != 'enable':
                sp.pending_unknown = True       # nested calls postponed callbacks of their own
            if t[0] == 'enable':
                sp.enabled = bool(int(t[1]))
                if sp.enabled:
                    # everything postponed was handed out (or, if a callback raised, an unknown rest stays)
                    sp.pending, sp.pending_unknown = [], res != 'ok'
            # deferred deletions a callback may have asked for (also of identifiers that own nothing, which
            # no query shows): the next sweep may include them
            for ops in sp.react_ops.values():
                for x in ops:
                    if x[0] == 'delete' and x[2] == '0':
                        sp.maybe_dead.add(int(x[1]))
            if res not in ('ok',) and not res.startswith('raised'):
                return [{'sig': 'outcome' + territory(), 'what': f'`{" ".join(t)}`: got `{res}`'}]
            sp.failed, sp.failed_op = 'reentrant' if res == 'ok' else True, t[0]
            sp.counter_unknown = True
            continue
        out = []
        want_res, want_ret = 'ok', '-'
        sp.cur_cbs, sp.cur_res = cbs, res
        if t[0] == 'addproc' and t[2] != '-':
            sp.intent_prio[int(t[1])] = int(t[2])
        try:
            want_ret = sp.op(t, ret, out)
        except ScriptedRaise as e:
            want_res = 'raised ' + e.name
            # a callback raising while postponed events are released leaves a well defined state: that
            # event was delivered, the later ones stay pending in order (they are popped one at a time)
            if e.name != 'KeyError' and t[0] != 'enable':
                sp.failed_op = t[0]
                sp.skipped = 0
                sp.failed = 'deleted' if any(x not in sp.attached for x in sp.dead) else True
        except Mismatch as m:
            return [{'sig': m.clause + territory(), 'what': m.what}]
        if cbs != out:
            k = next((i for i, (a, b) in enumerate(zip(cbs, out)) if a != b), min(len(cbs), len(out)))
            got = cbs[k] if k < len(cbs) else '<none>'
            want = out[k] if k < len(out) else '<none>'
            which = (want if want != '<none>' else got).split()
            is_proc = which[1].isdigit() and sp.kind[sp.objty[int(which[1])]] in ('p', 'upd')
            if len(which) > 2 and which[2] == 'process':
                clause = 'process-calls'
            elif is_proc:
                clause = 'processor-lifecycle'
            elif want == '<none>':
                clause = 'unexpected-callback'
            elif got == '<none>':
                clause = 'missing-callback'
            else:
                clause = 'wrong-callback'
            return [{'sig': clause + territory(), 'what': f'`{" ".join(t)}`: callback #{k} required `{want}`, '
                     f'implementation gave `{got}`'}]
        if res != want_res:
            clause = 'process-raised' if t[0] == 'process' else 'outcome'
            return [{'sig': clause + territory(), 'what': f'`{" ".join(t)}`: required `{want_res}`, got `{res}`'}]
        if want_res == 'ok' and ret != want_ret:
            clause = {'create': 'create-entity-id', 'remove': 'remove-result', 'rmproc': 'remove-result'}.get(
                t[0], 'return-value')
            return [{'sig': clause + territory(), 'what': f'`{" ".join(t)}`: returned {ret}, required {want_ret}'}]
    return []
