"""C11 and C17 on trees BUILT BY THE POPULATOR (scenarios of the `pop` model) — oracles as predicates.

The properties hold for every way a tree gets built.  These judges do not recompute what the populator
must build (that is C16's oracle, spec_pop); they look at the observed tree alone:

  C11  every map / handle reachable in a dump records the map containing it and the name it is stored
       under (maps made for directories included), and no name is both a handle and a sub-map;
  C17  a snapshot taken of the populated map answers like the map itself: the same path through
       `snapshot[..]` / `snapshot.attr` and through `m[..][..]`, through `snapshot.get(..)` and `m.get(..)`,
       and the snapshot's content (probed with get) is the map's content at the time it was taken.

Pop scenarios store every object at most once (fresh handles, objects made by the factories), so the
back-link clause applies to everything reachable.
"""
from harness.spec_tree import comps, key_field, reserved, Stop

MAX_DEPTH = 4


class Judge:
    def __init__(self, lines, obs, pid):
        self.lines, self.obs, self.pid = lines, list(obs), pid
        self.pos = 0
        self.violations = []
        self.snap_of = {}         # snapshot name -> (map name, dump of that map when it was taken or None)
        self.last_dump = {}       # map name -> parsed dump, valid until the next mutation
        self.answers = {}         # ('get'|'item', map name, path token) -> observation, until the next mutation
        self.alphabet = sorted({c for ln in lines for t in ln.split() if t.startswith(':') for c in comps(t)})

    def next(self):
        if self.pos >= len(self.obs):
            raise Stop()
        o = self.obs[self.pos]
        self.pos += 1
        return o

    def fail(self, sig, what):
        if sig.split(':')[0] == self.pid:
            self.violations.append({'sig': sig, 'what': what})
            raise Stop()

    def block(self, end):
        out = []
        while True:
            o = self.next()
            if o == end:
                return out
            out.append(o)

    def mutated(self):
        self.last_dump.clear()
        self.answers.clear()
        for s in self.snap_of:
            self.snap_of[s] = (self.snap_of[s][0], self.snap_of[s][1], False)

    # ---- C11 on one dump
    def judge_dump(self, name, after):
        maps, hnd = {}, []
        for o in self.block('end-dump'):
            t = o.split()
            path = tuple(comps(t[1])) if t[1] != '-' else ()
            if t[0] == 'map':
                maps[path] = (t[2], t[3].split('=', 1)[1], key_field(t[4]))
            elif t[0] == 'hnd':
                hnd.append((path, int(t[2]), t[3][1:], t[4], t[5].split('=', 1)[1], key_field(t[6])))
        self.last_dump[name] = (maps, hnd)
        ctx = f'tree of {name} after `{after}`'
        for path, li, k, h, par, key in hnd:
            if path + (k,) in maps:
                self.fail('C11:one-kind', f'{ctx}: under `{"/".join(path) or "<root>"}` the name {k!r} is both a handle '
                          f'({h}, layer {li}) and a sub-map')
        for path, (mname, par, key) in sorted(maps.items()):
            if path and path[:-1] in maps and (par != maps[path[:-1]][0] or key != path[-1]):
                self.fail('C11:backlink-populated-map', f'{ctx}: the map {mname} at `{"/".join(path)}` must record '
                          f'parent={maps[path[:-1]][0]} key={path[-1]!r}, it records parent={par} key={key!r}')
        for path, li, k, h, par, key in hnd:
            if path in maps and (par != maps[path][0] or key != k):
                self.fail('C11:backlink-handle', f'{ctx}: the handle {h} stored under {k!r} in {maps[path][0]} '
                          f'(`{"/".join(path) or "<root>"}`, layer {li}) must record parent={maps[path][0]} key={k!r}, '
                          f'it records parent={par} key={key!r}')

    # ---- C17: snapshot content against the dump of the map it was taken of
    def judge_sdump(self, s):
        got = self.block('end-sdump')
        m, dump, clean = self.snap_of.get(s, (None, None, False))
        if dump is None:
            return
        maps, hnd = dump
        visible = {}
        for path, li, k, h, _, _ in sorted(hnd, key=lambda x: x[1]):
            visible.setdefault((path, k), h)
        want = []

        def walk(path):
            if len(path) >= MAX_DEPTH:
                return
            for k in self.alphabet:
                if reserved(k):
                    continue
                p = ':' + '/'.join(path + (k,))
                if (path, k) in visible:
                    want.append(f'snode {p} handle {visible[(path, k)]}')
                elif path + (k,) in maps:
                    want.append(f'snode {p} smap')
                    walk(path + (k,))
        walk(())
        if want != got:
            i = next((j for j, (a, b) in enumerate(zip(want, got)) if a != b), min(len(want), len(got)))
            w = want[i] if i < len(want) else '<nothing more>'
            g = got[i] if i < len(got) else '<nothing more>'
            sig = 'C17:mirror-get' if i < len(want) and i < len(got) and w.split()[1] == g.split()[1] \
                else 'C17:absent-names'
            self.fail(sig, f'content of snapshot {s} of the populated map {m} (probed with get): the map has `{w}`, '
                      f'the snapshot `{g}`')

    def run(self):
        after = ''
        try:
            for ln in self.lines:
                t = ln.split()
                if not t or t[0] in ('fs', 'glob', 'pop', 'newmap', 'newhandle', 'react'):
                    continue
                if t[0] == 'rule':
                    if self.pos < len(self.obs) and self.obs[self.pos].startswith('rule-raised'):
                        self.next()
                    continue
                t = t[1:]
                kind = t[0]
                if kind == 'populate':
                    after = ln
                    self.mutated()
                    while True:
                        o = self.next()
                        if o.startswith(('res ', 'unbound', 'op-raised')):
                            break
                elif kind in ('set', 'setkey', 'layer', 'clear', 'hclear'):
                    after = ln
                    self.mutated()
                    self.next()
                elif kind == 'dump':
                    self.judge_dump(t[1], after)
                elif kind == 'links':
                    self.block('end-links')
                elif kind == 'sdump':
                    self.judge_sdump(t[1])
                elif kind == 'snap':
                    o = self.next()
                    if o == 'sres ok':
                        self.snap_of[t[1]] = (t[2], self.last_dump.get(t[2]), True)
                    elif o != 'unbound':
                        self.fail('C17:snapshot-failed', f'{ln} (after `{after}`): get_static_map() must return a '
                                  f'snapshot of the populated map, implementation gave `{o}`')
                elif kind in ('get', 'getitem', 'chain'):
                    self.answers[('get' if kind == 'get' else 'item', t[1], t[2])] = self.next()
                elif kind in ('sget', 'sgetitem', 'sgetattr'):
                    o = self.next()
                    m, _, clean = self.snap_of.get(t[1], (None, None, False))
                    if not clean or any(reserved(k) for k in comps(t[2])):
                        continue
                    ref = self.answers.get(('get' if kind == 'sget' else 'item', m, t[2]))
                    if ref is None:
                        continue
                    r, g = ref.split(), o.split()
                    if kind == 'sget':
                        ok = (r[1] == 'handle' and g[1:] == r[1:]) or (r[1] == 'map' and g[1] == 'smap') or \
                            (r[1] == 'default' and g[1] == 'raised')
                        sig = 'C17:mirror-get'
                    else:
                        ok = (r[1] == 'val' and g[1:] == r[1:]) or (r[1] == 'map' and g[1] == 'smap') or \
                            (r[1:3] == ['raised', 'KeyError'] and g[1] == 'raised' and g[2:] != ['LoadError']) or \
                            (r[1] == 'stuck' and g[1] == 'stuck') or (r[1:] == ['raised', 'LoadError'] and g[1:] == r[1:])
                        sig = 'C17:mirror-item'
                    if not ok:
                        self.fail(sig, f'{ln} on the snapshot of the populated map {m} (after `{after}`): the map '
                                  f'itself answered `{ref}`, the snapshot `{o}`')
                elif kind in ('ssetattr', 'sdelattr'):
                    o = self.next()
                    if not o.startswith(('sres raised', 'sres nav-failed', 'sunbound', 'unmodelled')):
                        self.fail('C17:immutable', f'{ln}: must raise, implementation gave `{o}`')
                else:
                    self.next()      # call, cached, stat, splitext, bind, ...: one observation each
        except Stop:
            pass
        return self.violations


class Stream:
    """a second scenario stream over the `pop` model for a tree property"""
    MODEL = 'pop'
    PID = None
    STATIC = False
    KEEP = ()

    @classmethod
    def generate(cls, rng, n):
        from harness import gen_pop
        for _ in range(n):
            yield gen_pop.gen_c16(rng, static=cls.STATIC)

    @classmethod
    def project(cls, obs):
        return [o for o in obs if o.split()[0] in cls.KEEP]

    @classmethod
    def oracle(cls, lines, obs):
        return Judge(lines, obs, cls.PID).run()

    @staticmethod
    def nontrivial(lines, obs):
        return any(o.startswith('made ') for o in obs)


def is_pop_scenario(lines):
    return any(ln.startswith(('fs ', 'pop ')) for ln in lines)


def run_stream(ctx, stream, n, what):
    """the `extra_checks` of C11 / C17: corpus + generated pop scenarios through implementation, model, judge"""
    import random
    from harness import core
    from harness.models import pop as impl_pop
    rng = random.Random(ctx.seed * 7907 + int(ctx.pid[1:]))
    corpus = sorted((core.VERIF / 'corpus' / ctx.pid / 'pop').glob('*.scn'))
    scen = [[ln for ln in f.read_text().splitlines() if ln.strip() and not ln.startswith('#')] for f in corpus] + \
        list(stream.generate(rng, n))
    divs, nontriv, impl_obs, _ = core.correspondence(ctx, stream, impl_pop, scen, 'pop')
    if divs:
        ctx.broken.append({'kind': 'correspondence', 'stream': 'pop', 'count': len(divs), 'first': divs[0]})
    ctx.cov['populated_trees_stream'] = {
        'scenarios': len(scen), 'nontrivial': len(nontriv),
        'populations': sum(1 for s in scen for l in s if l.startswith('op populate')),
        'snapshots': sum(1 for s in scen for l in s if l.startswith('op snap')),
        'rule': what}
